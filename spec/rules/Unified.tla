------------------------------ MODULE Unified ------------------------------
(* Unified patches (git diff / git apply, diff.c, apply.c) over abstract files.

   A file is a sequence of line symbols plus a flag "the last line ends with a newline"
   (nl; TRUE for the empty file), a mode and a binary flag.  A tree maps paths to files.
   A patch is a sequence of file patches  [kind, opath, npath, omode, nmode, binary, rename,
   hunks], a hunk is [os, ol, ns, nl, lines] with lines = sequence of [t, s, nonl]
   (t in " ", "+", "-"; nonl = the line is followed by "\ No newline at end of file").

   This module defines
     WellFormedHunk / HunkProblems   counts match lines, start conventions for an empty side,
                                     marker only on the last line of a side, hunks ordered;
     ApplyHunks(file, hunks)         what git apply computes (or Fail);
     ApplyPatch(tree, patch)         the same for whole trees incl. create / delete / mode change /
                                     rename and git's rule that a file patch cannot change the
                                     object type in place (symlink <-> regular file);
     NumStat(fp)                     added / deleted line counts, Minimal via LCS;
   and the bounded domain of cases (pairs of files / trees) the harness feeds to go-git.
   The verdict on go-git's output is computed by UnifiedCheck.tla (batch trace validation). *)
EXTENDS Integers, Sequences, FiniteSets, TLC, Json, IOUtils, SequencesExt, FiniteSetsExt

CONSTANTS MaxLen,     \* family P: all file pairs over {x,y,z} with at most MaxLen lines
          LongEdits,  \* family L: templates with up to LongEdits edits (0 = off)
          Emit

-----------------------------------------------------------------------------
\* files and trees
F(lines, nl, mode, bin) == [p |-> TRUE, lines |-> lines, nl |-> nl, mode |-> mode, bin |-> bin]
Absent == [p |-> FALSE, lines |-> <<>>, nl |-> TRUE, mode |-> "", bin |-> FALSE]
TypeOf(mode) == IF mode \in {"100644", "100755"} THEN "file"
                ELSE IF mode = "120000" THEN "symlink" ELSE IF mode = "160000" THEN "gitlink" ELSE "none"

-----------------------------------------------------------------------------
\* hunks
OldSide(h) == SelectSeq(h.lines, LAMBDA l : l.t \in {" ", "-"})
NewSide(h) == SelectSeq(h.lines, LAMBDA l : l.t \in {" ", "+"})
\* 0-based index in the old file at which the old side of the hunk starts: git's convention is
\* that a hunk with an empty old side names the line *after which* the new lines go
OldPos(h) == IF h.ol = 0 THEN h.os ELSE h.os - 1
NewPos(h) == IF h.nl = 0 THEN h.ns ELSE h.ns - 1

Lead(h)  == LET idx == {i \in 1..Len(h.lines) : h.lines[i].t # " "}
            IN IF idx = {} THEN Len(h.lines) ELSE Min(idx) - 1
Trail(h) == LET idx == {i \in 1..Len(h.lines) : h.lines[i].t # " "}
            IN IF idx = {} THEN Len(h.lines) ELSE Len(h.lines) - Max(idx)

\* problems of one hunk that do not depend on the file it is applied to
HunkProblems(h, ctx) ==
  (IF h.ol = Len(OldSide(h)) /\ h.nl = Len(NewSide(h)) THEN {} ELSE {"hunk-counts"}) \cup
  (IF \E i \in 1..Len(h.lines) : h.lines[i].t # " " THEN {} ELSE {"hunk-without-change"}) \cup
  (IF \A i \in 1..Len(OldSide(h)) : OldSide(h)[i].nonl => i = Len(OldSide(h)) THEN {} ELSE {"marker-not-last-old"}) \cup
  (IF \A i \in 1..Len(NewSide(h)) : NewSide(h)[i].nonl => i = Len(NewSide(h)) THEN {} ELSE {"marker-not-last-new"}) \cup
  (IF Lead(h) <= ctx /\ Trail(h) <= ctx THEN {} ELSE {"context-exceeds-request"}) \cup
  \* (the new-side start is judged by NewStartsOK: git apply does not use it)
  (IF h.os >= 0 /\ (h.ol > 0 => h.os >= 1) THEN {} ELSE {"hunk-start"})

\* git apply on one file: walk the hunks in order; Fail unless every old-side line matches
Fail == [ok |-> FALSE, lines |-> <<>>, nl |-> TRUE, why |-> "hunk-mismatch"]
Syms(ls) == [i \in 1..Len(ls) |-> ls[i].s]
HasNonl(ls) == Len(ls) > 0 /\ ls[Len(ls)].nonl

RECURSIVE ApplyFrom(_, _, _, _, _, _)
\* old file (lines, nl), remaining hunks, 0-based position reached in old, output so far,
\* whether the output so far ends without newline
ApplyFrom(lines, nl, hs, pos, out, outnonl) ==
  IF hs = <<>> THEN
     \* copy the rest of the old file
     IF outnonl /\ pos < Len(lines) THEN [Fail EXCEPT !.why = "text-after-missing-newline"]
     ELSE [ok |-> TRUE, lines |-> out \o SubSeq(lines, pos + 1, Len(lines)),
           \* the last line is either copied from the old file or the last new-side line of a hunk
           nl |-> IF pos < Len(lines) THEN nl ELSE ~outnonl, why |-> ""]
  ELSE LET h == Head(hs)  o == OldSide(h)  n == NewSide(h)  p == OldPos(h)
       IN IF p < pos THEN [Fail EXCEPT !.why = "hunks-overlap-or-unordered"]
          ELSE IF p + Len(o) > Len(lines) THEN [Fail EXCEPT !.why = "hunk-beyond-end"]
          ELSE IF Syms(o) # SubSeq(lines, p + 1, p + Len(o)) THEN Fail
          \* the marker on the old side must say exactly whether the old file lacks the final newline
          ELSE IF HasNonl(o) # (p + Len(o) = Len(lines) /\ ~nl /\ Len(o) > 0) THEN [Fail EXCEPT !.why = "old-side-newline-marker"]
          ELSE IF outnonl /\ (p > pos \/ Len(n) > 0) THEN [Fail EXCEPT !.why = "text-after-missing-newline"]
          ELSE ApplyFrom(lines, nl, Tail(hs), p + Len(o), out \o SubSeq(lines, pos + 1, p) \o Syms(n),
                         IF Len(n) > 0 THEN HasNonl(n) ELSE outnonl)

ApplyHunks(f, hs) == ApplyFrom(f.lines, f.nl, hs, 0, <<>>, FALSE)

\* the new-side start of every hunk must be the old-side position shifted by the net growth of the
\* hunks before it (git apply tolerates a wrong value; git diff never writes one)
SumSeq(q) == FoldLeft(LAMBDA a, b : a + b, 0, q)
NewStartsOK(hs) == \A k \in 1..Len(hs) :
   NewPos(hs[k]) = OldPos(hs[k]) + SumSeq([j \in 1..k-1 |-> hs[j].nl - hs[j].ol])

-----------------------------------------------------------------------------
\* whole patches over trees (functions path -> file, Absent for missing paths)
Paths == {"f1", "f2"}
FPProblems(fp, ctx) ==
  UNION {HunkProblems(fp.hunks[i], ctx) : i \in 1..Len(fp.hunks)} \cup
  (IF NewStartsOK(fp.hunks) THEN {} ELSE {"new-start"}) \cup
  (IF fp.kind = "modify" /\ fp.omode # "" /\ fp.nmode # "" /\ TypeOf(fp.omode) # TypeOf(fp.nmode)
   THEN {"type-change-in-place"} ELSE {}) \cup
  (IF fp.kind \in {"new", "delete", "modify"} THEN {} ELSE {"unknown-kind"}) \cup
  (IF fp.binary /\ Len(fp.hunks) > 0 THEN {"binary-with-hunks"} ELSE {})

\* apply one file patch to a tree; tgt is the tree the patch is supposed to produce (used only for
\* file patches that say "Binary files differ": git apply takes the postimage named by the index
\* line from the object database; whether the marker is justified is judged by BinaryMarkerOK)
BinaryMarkerOK(fp, old, new) == fp.binary => ((old[fp.opath].p /\ old[fp.opath].bin) \/ (new[fp.npath].p /\ new[fp.npath].bin))
ApplyFP(tree, fp, tgt) ==
  LET bad(w) == [ok |-> FALSE, tree |-> tree, why |-> w]
      good(t) == [ok |-> TRUE, tree |-> t, why |-> ""]
  IN
  CASE fp.kind = "new" ->
         IF tree[fp.npath].p THEN bad("create-existing")
         ELSE IF fp.binary THEN (IF tgt[fp.npath].p
                                 THEN good([tree EXCEPT ![fp.npath] = [tgt[fp.npath] EXCEPT !.mode = fp.nmode]])
                                 ELSE bad("binary-postimage-unknown"))
         ELSE LET r == ApplyHunks(F(<<>>, TRUE, fp.nmode, FALSE), fp.hunks)
              IN IF r.ok THEN good([tree EXCEPT ![fp.npath] = F(r.lines, r.nl, fp.nmode, FALSE)]) ELSE bad(r.why)
    [] fp.kind = "delete" ->
         IF ~tree[fp.opath].p THEN bad("delete-missing")
         \* (git apply only warns when the permission bits differ; a different object type is an error)
         ELSE IF TypeOf(tree[fp.opath].mode) # TypeOf(fp.omode) THEN bad("old-mode-mismatch")
         ELSE IF fp.binary THEN good([tree EXCEPT ![fp.opath] = Absent])
         ELSE IF tree[fp.opath].bin THEN bad("text-patch-on-binary")
         ELSE LET r == ApplyHunks(tree[fp.opath], fp.hunks)
              IN IF ~r.ok THEN bad(r.why)
                 ELSE IF r.lines # <<>> THEN bad("delete-leaves-content")
                 ELSE good([tree EXCEPT ![fp.opath] = Absent])
    [] fp.kind = "modify" ->
         IF ~tree[fp.opath].p THEN bad("modify-missing")
         ELSE IF fp.omode # "" /\ TypeOf(tree[fp.opath].mode) # TypeOf(fp.omode) THEN bad("old-mode-mismatch")
         ELSE IF fp.rename /\ fp.opath # fp.npath /\ tree[fp.npath].p THEN bad("rename-onto-existing")
         ELSE LET src == tree[fp.opath]
                  mode == IF fp.nmode # "" THEN fp.nmode ELSE src.mode
                  put(f) == IF fp.opath = fp.npath THEN [tree EXCEPT ![fp.npath] = f]
                            ELSE [tree EXCEPT ![fp.opath] = Absent, ![fp.npath] = f]
              IN IF fp.binary THEN (IF tgt[fp.npath].p
                                    THEN good(put([tgt[fp.npath] EXCEPT !.mode = mode])) ELSE bad("binary-postimage-unknown"))
                 ELSE IF src.bin /\ Len(fp.hunks) > 0 THEN bad("text-patch-on-binary")
                 ELSE LET r == ApplyHunks(src, fp.hunks)
                      IN IF r.ok THEN good(put([src EXCEPT !.lines = r.lines, !.nl = r.nl, !.mode = mode])) ELSE bad(r.why)
    [] OTHER -> bad("unknown-kind")

RECURSIVE ApplyPatch(_, _, _)
ApplyPatch(tree, fps, tgt) ==
  IF fps = <<>> THEN [ok |-> TRUE, tree |-> tree, why |-> ""]
  ELSE LET r == ApplyFP(tree, Head(fps), tgt)
       IN IF r.ok THEN ApplyPatch(r.tree, Tail(fps), tgt) ELSE r

\* line statistics
Adds(fp) == SumSeq([i \in 1..Len(fp.hunks) |-> Len(SelectSeq(fp.hunks[i].lines, LAMBDA l : l.t = "+"))])
Dels(fp) == SumSeq([i \in 1..Len(fp.hunks) |-> Len(SelectSeq(fp.hunks[i].lines, LAMBDA l : l.t = "-"))])

\* length of a longest common subsequence; lines that differ only in their terminator are different
\* lines, so the last lines are tagged with the final-newline flag before comparing
Tagged(f) == [i \in 1..Len(f.lines) |-> <<f.lines[i], i = Len(f.lines) /\ ~f.nl>>]
\* (bottom-up dynamic programme: TLC does not memoise recursive function definitions)
LCSRow(prev, ai, b) ==   \* prev, result: values for columns 0..Len(b), stored at index column + 1
  FoldLeft(LAMBDA acc, j : Append(acc, IF ai = b[j] THEN prev[j] + 1
                                       ELSE IF prev[j + 1] >= acc[Len(acc)] THEN prev[j + 1] ELSE acc[Len(acc)]),
           <<0>>, [j \in 1..Len(b) |-> j])
LCS(a, b) == Last(FoldLeft(LAMBDA prev, ai : LCSRow(prev, ai, b), [j \in 1..Len(b) + 1 |-> 0], a))
MinStat(o, n) == LET l == LCS(Tagged(o), Tagged(n))
                 IN [add |-> Len(n.lines) - l, del |-> Len(o.lines) - l]

-----------------------------------------------------------------------------
\* the bounded domain of cases
Alpha == {"x", "y", "z"}
Texts(n) == UNION {[1..k -> Alpha] : k \in 0..n}
TextFiles(n) == {F(l, nl, "100644", FALSE) : l \in Texts(n), nl \in BOOLEAN} \ {F(<<>>, FALSE, "100644", FALSE)}
Ctxs == {0, 1, 3}
One(o, n) == [f1 |-> o, f2 |-> Absent]
Case(fam, ctx, old, new) == [fam |-> fam, ctx |-> ctx, old |-> old, new |-> new]

\* family P: every ordered pair of different small text files x context
CasesP == {Case("P", c, [f1 |-> o, f2 |-> Absent], [f1 |-> n, f2 |-> Absent]) :
             c \in Ctxs, o \in TextFiles(MaxLen), n \in TextFiles(MaxLen)}

\* family L: a template of 12 distinct common lines with up to LongEdits edits (delete a line,
\* insert a line after it, replace it), so that hunks split / merge around the context size
TLen == 12
Tpl == [i \in 1..TLen |-> "c" \o ToString(i)]
EditKinds == {"del", "ins", "rep"}
WithEdits(es) == \* es: set of <<position, kind>> with distinct positions
  LET marked == [i \in 1..TLen |->
                   LET e == {x \in es : x[1] = i} IN
                   IF e = {} THEN <<Tpl[i]>>
                   ELSE LET k == (CHOOSE x \in e : TRUE)[2]
                        IN CASE k = "del" -> <<>> [] k = "rep" -> <<"x">> [] k = "ins" -> <<Tpl[i], "y">>]
  IN FlattenSeq(marked)
EditSets == {es \in UNION {kSubset(k, (1..TLen) \X EditKinds) : k \in 1..LongEdits} :
               \A a, b \in es : a # b => a[1] # b[1]}
CasesL == IF LongEdits = 0 THEN {} ELSE
          {Case("L", c, [f1 |-> F(Tpl, TRUE, "100644", FALSE), f2 |-> Absent],
                        [f1 |-> F(WithEdits(es), nl, "100644", FALSE), f2 |-> Absent]) :
             c \in Ctxs, es \in EditSets, nl \in BOOLEAN}

\* family T: one path changing between all kinds of entries (absent, text with modes, symlink,
\* binary) and family R: a path disappearing while another appears (rename candidates)
TCont == {F(<<>>, TRUE, "100644", FALSE), F(<<"x">>, TRUE, "100644", FALSE), F(<<"x", "y">>, TRUE, "100644", FALSE),
          F(<<"y">>, FALSE, "100644", FALSE)}
TStates == {Absent} \cup TCont \cup {[f EXCEPT !.mode = "100755"] : f \in TCont}
           \cup {F(<<"x">>, FALSE, "120000", FALSE), F(<<"y">>, FALSE, "120000", FALSE)}   \* symlinks: target, no newline
           \cup {F(<<"b1">>, TRUE, "100644", TRUE), F(<<"b2">>, TRUE, "100644", TRUE), F(<<"b1">>, TRUE, "100755", TRUE)}
CasesT == {Case("T", 3, [f1 |-> o, f2 |-> Absent], [f1 |-> n, f2 |-> Absent]) : o \in TStates, n \in TStates}
RBody == <<"x", "y", "z", "x", "y", "z">>
RCont == {F(RBody, TRUE, "100644", FALSE), F(RBody \o <<"y">>, TRUE, "100644", FALSE), F(RBody, TRUE, "100755", FALSE),
          F(<<"x">>, TRUE, "100644", FALSE), F(<<"b1">>, TRUE, "100644", TRUE)}
CasesR == {Case("R", 3, [f1 |-> o, f2 |-> Absent], [f1 |-> Absent, f2 |-> n]) : o \in RCont, n \in RCont}
          \cup {Case("R", 3, [f1 |-> o, f2 |-> F(<<"z">>, TRUE, "100644", FALSE)], [f1 |-> n, f2 |-> F(<<"z", "z">>, TRUE, "100644", FALSE)]) :
                  o \in TCont, n \in TCont}

\* family M: patches of several files.  A patch is the sequence of the file patches of its files and
\* nothing flows from one file to the next (theorem Compositional below; checked on go-git's output
\* by UnifiedCheck!"state-leaks-between-files").  The earlier file (f1) is the 12-line template with
\* one edit that leaves more than the requested context unchanged at its end (trailing 10, 7, 4) or
\* exactly 3 / none; the later file (f2) is changed at its first or second line, beyond its first
\* three lines, added, deleted, binary, or only changes mode.
MBody == <<"x", "y", "z", "x", "y", "z">>
MFirst == {F(WithEdits({<<2, "rep">>}), TRUE, "100644", FALSE), F(WithEdits({<<5, "del">>}), TRUE, "100644", FALSE),
           F(WithEdits({<<8, "ins">>}), TRUE, "100644", FALSE), F(WithEdits({<<9, "rep">>}), TRUE, "100644", FALSE),
           F(WithEdits({<<12, "rep">>}), FALSE, "100644", FALSE)}
MSecond == { <<F(MBody, TRUE, "100644", FALSE), F(<<"z">> \o Tail(MBody), TRUE, "100644", FALSE)>>,            \* line 1
             <<F(MBody, TRUE, "100644", FALSE), F(<<"x", "x">> \o Tail(Tail(MBody)), TRUE, "100644", FALSE)>>,  \* line 2
             <<F(MBody, TRUE, "100644", FALSE), F(SubSeq(MBody, 1, 5) \o <<"x">>, TRUE, "100644", FALSE)>>,     \* line 6
             <<F(MBody, TRUE, "100644", FALSE), F(MBody, FALSE, "100644", FALSE)>>,                              \* final newline only
             <<Absent, F(MBody, TRUE, "100644", FALSE)>>, <<Absent, F(<<"x">>, FALSE, "100755", FALSE)>>,         \* added
             <<F(MBody, TRUE, "100644", FALSE), Absent>>, <<F(<<"y">>, FALSE, "100644", FALSE), Absent>>,         \* deleted
             <<Absent, F(<<"b1">>, TRUE, "100644", TRUE)>>,                                                      \* binary added
             <<F(MBody, TRUE, "100644", FALSE), F(MBody, TRUE, "100755", FALSE)>> }                              \* mode only
CasesM == {Case("M", c, [f1 |-> F(Tpl, TRUE, "100644", FALSE), f2 |-> s[1]], [f1 |-> a, f2 |-> s[2]]) :
             c \in Ctxs, a \in MFirst, s \in MSecond}

Cases == {c \in CasesP \cup CasesL \cup CasesT \cup CasesR \cup CasesM : c.old # c.new}

FileJ(f) == [p |-> f.p, lines |-> f.lines, nl |-> f.nl, mode |-> f.mode, bin |-> f.bin]
CaseJ(c) == [fam |-> c.fam, ctx |-> c.ctx,
             old |-> [f1 |-> FileJ(c.old.f1), f2 |-> FileJ(c.old.f2)],
             new |-> [f1 |-> FileJ(c.new.f1), f2 |-> FileJ(c.new.f2)],
             \* the statistics of a minimal diff, per path (spec vs git diff --numstat vs go-git Stats)
             min |-> [f1 |-> MinStat(c.old.f1, c.new.f1), f2 |-> MinStat(c.old.f2, c.new.f2)]]
ASSUME Emit => ndJsonSerialize("uni_cases.ndjson", SetToSeq({CaseJ(c) : c \in Cases}))

-----------------------------------------------------------------------------
\* every case is a TLC state; theorems tying the definitions together
VARIABLES case
Init == case \in Cases
Next == UNCHANGED case
Spec == Init /\ [][Next]_case

\* the trivial patch (delete everything, add everything) is well formed and ApplyHunks maps old to new
Whole(o, n) ==
  LET ol == [i \in 1..Len(o.lines) |-> [t |-> "-", s |-> o.lines[i], nonl |-> (i = Len(o.lines) /\ ~o.nl)]]
      nw == [i \in 1..Len(n.lines) |-> [t |-> "+", s |-> n.lines[i], nonl |-> (i = Len(n.lines) /\ ~n.nl)]]
  IN [os |-> IF Len(ol) = 0 THEN 0 ELSE 1, ol |-> Len(ol), ns |-> IF Len(nw) = 0 THEN 0 ELSE 1, nl |-> Len(nw), lines |-> ol \o nw]
TextCase == \A p \in Paths : case.old[p].p /\ case.new[p].p /\ ~case.old[p].bin /\ ~case.new[p].bin
                              /\ (case.old[p].lines # case.new[p].lines \/ case.old[p].nl # case.new[p].nl)
            => LET o == case.old[p]  n == case.new[p]  r == ApplyHunks(o, <<Whole(o, n)>>)
               IN /\ r.ok /\ r.lines = n.lines /\ (n.lines # <<>> => r.nl = n.nl)
                  /\ HunkProblems(Whole(o, n), 0) = {}
\* a patch of several files is the concatenation of the patches of its files: applying the file
\* patches one after the other gives the same tree as applying the concatenation, and that tree is
\* the target; no file patch depends on the one before it
WholeFP(p, o, n) ==
  [kind |-> IF ~o.p THEN "new" ELSE IF ~n.p THEN "delete" ELSE "modify", opath |-> p, npath |-> p,
   omode |-> o.mode, nmode |-> n.mode, binary |-> FALSE, rename |-> FALSE,
   hunks |-> IF o.lines = n.lines /\ (o.nl = n.nl \/ o.lines = <<>>) THEN <<>> ELSE <<Whole(o, n)>>]
TextTree(t) == \A p \in Paths : ~t[p].bin
Compositional ==
  (TextTree(case.old) /\ TextTree(case.new) /\ \A p \in Paths : TypeOf(case.old[p].mode) = TypeOf(case.new[p].mode) \/ ~case.old[p].p \/ ~case.new[p].p) =>
     LET a == IF case.old["f1"] = case.new["f1"] THEN <<>> ELSE <<WholeFP("f1", case.old["f1"], case.new["f1"])>>
         b == IF case.old["f2"] = case.new["f2"] THEN <<>> ELSE <<WholeFP("f2", case.old["f2"], case.new["f2"])>>
         both == ApplyPatch(case.old, a \o b, case.new)
         first == ApplyPatch(case.old, a, case.new)
         second == ApplyPatch(first.tree, b, case.new)
         norm(t) == [p \in Paths |-> IF t[p].p /\ t[p].lines = <<>> THEN [t[p] EXCEPT !.nl = TRUE] ELSE t[p]]
     IN /\ both.ok /\ first.ok /\ second.ok
        /\ both.tree = second.tree
        /\ norm(both.tree) = norm(case.new)
        \* and the order of independent file patches does not matter
        /\ ApplyPatch(case.old, b \o a, case.new).tree = both.tree
\* applying no hunk is the identity
Identity == \A p \in Paths : case.old[p].p /\ ~case.old[p].bin =>
               LET r == ApplyHunks(case.old[p], <<>>) IN r.ok /\ r.lines = case.old[p].lines /\ r.nl = case.old[p].nl
\* a minimal diff never adds or deletes more than the trivial one, and adds - dels is the length difference
StatBounds == \A p \in Paths : LET m == MinStat(case.old[p], case.new[p]) IN
                /\ m.add >= 0 /\ m.del >= 0 /\ m.add <= Len(case.new[p].lines) /\ m.del <= Len(case.old[p].lines)
                /\ m.add - m.del = Len(case.new[p].lines) - Len(case.old[p].lines)
=============================================================================
