---------------------------- MODULE TreeJailTrace ----------------------------
(* C26, trace validation of recorded worktree footprints.  One trace = the filesystem requests one API
   operation made on the worktree filesystem (below go-git's own path-validating wrapper), in order,
   together with the symbolic links present when the operation started.  The link table evolves while the
   trace is read (a successful Symlink adds a link, Remove / Rename of a link removes it), every request
   is judged against the table current at that moment:  both readings of PathJail must end inside the
   worktree and outside .git (TreeJail!LocOK).  Failed requests are judged too (an attempt to open
   ../outside is a request for it).  Lstat/Stat/Readlink may name a forbidden entry or a link in the FINAL
   position (looking at an entry is how the code finds out); they do not follow a final link.           *)
EXTENDS TreeJail

Traces == ndJsonDeserialize("c26_trace.ndjson")

ReqOf(r) == r.base \o r.p
AddLink(L, r) == Append(L, [at |-> Lex(ReqOf(r)).p, to |-> r.to, kind |-> r.tk])
DelLink(L, loc) == SelectSeq(L, LAMBDA l : l.at # loc)

Probe(op) == op \in {"Lstat", "Stat", "Readlink"}

\* a probe may name a forbidden entry itself (final position, any depth): that is how the code finds out
ProbeOK(res, n, h) == Inside(res, WT) /\ LET t == Strip(WT, res.p) IN \A i \in 1..Len(t) : Forbidden(t[i], n, h) => i = Len(t)
OK(r, res, n, h) == IF Probe(r.op) THEN ProbeOK(res, n, h) ELSE LocOK(res, n, h)

JudgeReq(r, L, n, h) ==
  LET lx == Lex(ReqOf(r))
      ph == Phys(ReqOf(r), L, FollowsFinal(r.op))
  IN IF ~OK(r, lx, n, h) THEN <<"lexical", IF Inside(lx, WT) THEN "inside-dotgit" ELSE "outside-worktree">>
     ELSE IF ~OK(r, ph, n, h) /\ Probe(r.op) THEN <<"symlink", "probe-through-link">>   \* a metadata look-up that runs through a link
     ELSE IF ~OK(r, ph, n, h) THEN <<"symlink", IF Inside(ph, WT) THEN "inside-dotgit" ELSE "outside-worktree">>
     ELSE <<"none", "ok">>

RECURSIVE Walk(_, _, _, _, _, _)
Walk(recs, i, L, n, h, bad) ==
  IF i > Len(recs) THEN bad
  ELSE LET r == recs[i]
           v == JudgeReq(r, L, n, h)
           nb == IF v[2] = "ok" THEN bad ELSE Append(bad, [i |-> i, via |-> v[1], where |-> v[2], op |-> r.op])
           loc == Lex(ReqOf(r)).p
           L2 == IF r.err THEN L
                 ELSE IF r.op = "Symlink" THEN AddLink(DelLink(L, loc), r)
                 ELSE IF r.op \in {"Remove", "Rename"} THEN DelLink(L, loc)
                 ELSE L
       IN Walk(recs, i + 1, L2, n, h, nb)

\* storage-side records of submodule operations (srecs): judged against the links present at the start
StoreBad(t) == LET idx == {i \in 1..Len(t.srecs) :
                     LET r == t.srecs[i]
                         onm == Len(r.base) > Len(GD)
                     IN ~(StoreLocOK(Lex(ReqOf(r)), onm) /\ StoreLocOK(Phys(ReqOf(r), t.links, FollowsFinal(r.op)), onm))}
               IN SetToSortSeq(idx, LAMBDA a, b : a < b)

JudgeTrace(t) == [id |-> t.id, bad |-> Walk(t.recs, 1, t.links, t.ntfs, t.hfs, <<>>), sbad |-> StoreBad(t)]

ASSUME ndJsonSerialize("c26_verdicts.ndjson", [i \in 1..Len(Traces) |-> JudgeTrace(Traces[i])])

VARIABLE k
TInit == k \in 1..Len(Traces) /\ sc = [c1 |-> <<>>, c2 |-> <<>>, planted |-> <<>>, ntfs |-> FALSE, hfs |-> FALSE]
TNext == UNCHANGED <<k, sc>>
\* sanity on recorded data: a trace without dots, forbidden names and links is accepted entirely
CleanTraceAccepted ==
  LET t == Traces[k] IN
   (t.links = <<>> /\ \A i \in 1..Len(t.recs) :
        /\ t.recs[i].op # "Symlink"
        /\ \A j \in 1..Len(t.recs[i].p) : t.recs[i].p[j] \notin {"..", ".git", ".GIT", ".Git"} \cup DotGitNTFS \cup DotGitHFS)
   => JudgeTrace(t).bad = <<>>
=============================================================================
