-------------------------- MODULE ShellQuoteTrace --------------------------
(* C41, batch trace validation (code -> spec).  The harness records command lines really sent
   by go-git's ssh transport (tokenised into the symbol classes of ShellQuote) together with the
   words they were built from; this module evaluates the acceptance predicate of ShellQuote on
   every record and writes one verdict per record.  A line is accepted iff a POSIX shell reads it
   as exactly <<svc, path, args...>> with nothing unquoted (Sh), git-shell's sq_dequote_to_argv
   recovers the same words (Dequote), and no '!' is left un-escaped (csh history expansion; the
   reason sq_quote_buf escapes it).  Verdict classes, first applicable:
     quote-open, meta-unquoted, words-differ, dequote-fails, bang-unescaped, ok
   `at` is the origin (ShellQuote!Origin) of the first symbol where the line departs from the
   canonical Line(): a finite, refactoring-stable key for finding signatures.            *)
EXTENDS ShellQuote

Recs == ndJsonDeserialize("c41_trace.ndjson")

\* recorded lines are tokenised from bytes: the separator 0x20 and a data space are both "sp"
Norm(s) == [i \in 1..Len(s) |-> IF s[i] = "SP" THEN "sp" ELSE s[i]]
Canon(r) == Norm(Line(Svc, r.ws))

FirstDiff(a, b) ==      \* smallest index where a and b differ; 0 if equal
  IF a = b THEN 0
  ELSE LET n == IF Len(a) < Len(b) THEN Len(a) ELSE Len(b)
           d == {i \in 1..n : a[i] # b[i]}
       IN IF d = {} THEN n + 1 ELSE CHOOSE i \in d : \A j \in d : i <= j

At(r) == LET exp == Canon(r)
             k   == FirstDiff(exp, r.line)
             org == Origin(r.ws)
         IN IF k = 0 THEN "none" ELSE IF k > Len(org) THEN "end" ELSE org[k]

Class(r) ==
  LET sh == Sh(r.line)
      dq == IF Len(r.line) >= 2 /\ r.line[1] = Svc /\ r.line[2] = "sp"
            THEN Dequote(SubSeq(r.line, 3, Len(r.line))) ELSE <<FALSE, <<>>>>
  IN IF sh.open THEN "quote-open"
     ELSE IF sh.meta THEN "meta-unquoted"
     ELSE IF sh.words # <<<<Svc>>>> \o r.ws THEN "words-differ"
     ELSE IF dq # <<TRUE, r.ws>> THEN "dequote-fails"
     ELSE IF sh.rawbang THEN "bang-unescaped"
     ELSE "ok"

Verdict(r) == [id |-> r.id, class |-> Class(r), at |-> At(r), canonical |-> r.line = Canon(r)]

ASSUME ndJsonSerialize("c41_verdicts.ndjson", [i \in 1..Len(Recs) |-> Verdict(Recs[i])])

VARIABLE k
TInit == k \in 1..Len(Recs) /\ ws = Recs[k].ws /\ line = Recs[k].line
TNext == UNCHANGED <<k, ws, line>>
\* model-level sanity: a canonical line is always accepted (restates the ShellQuote theorem on recorded data)
CanonicalAccepted == (Recs[k].line = Canon(Recs[k])) => Class(Recs[k]) = "ok"
=============================================================================
